"""Counter-model search over extracted terms (part of E2).

When the sign analysis cannot exclude a forbidden sign, the obligation is undetermined.  To turn "cannot exclude" into a
definite report, look for an assignment of the term's *inputs* under which the term itself takes the forbidden sign: TermFlow
terms are expressions over the analysed function's inputs with all local definitions inlined, so the atoms of a term
(symbols, elements of input arrays, results of opaque library calls) are independent inputs, constrained only by the
assumption table.  The search evaluates the **term** (never repository code) at a fixed pseudo-random sequence of rational
sample points, rejects samples that break an assumption, and resolves `ite`/comparisons under the sample.  A hit is a concrete
witness (printed with the report); no hit leaves the obligation undetermined.
"""
from __future__ import annotations

import math
import random
from typing import Dict, List, Optional, Tuple

import sympy as sp

from . import terms as T
from .terms import fname
from .signs import NEG, ZERO, POS

GENERIC = [-3.0, -0.7, -0.2, 0.0, 0.15, 0.6, 1.0, 2.5, 7.0]
POSITIVE = [0.05, 0.15, 0.6, 1.0, 2.5, 7.0]
STRUCT = {"ite", "where", "lt", "ge", "gt", "le", "eq", "ne", "and_", "or_", "not_", "maximum", "minimum", "max", "min",
          "loopsum", "loopsum_brk", "never", "isnull", "isnan", "pymod"}


class Invalid(Exception):
    pass


def _in(v: float, s: int) -> bool:
    if v > 0:
        return bool(s & POS)
    if v < 0:
        return bool(s & NEG)
    return bool(s & ZERO)


class Search:
    def __init__(self, assumptions):
        self.assumptions = assumptions

    def sign_of(self, t) -> Optional[int]:
        for pred, s, _ in self.assumptions:
            try:
                if pred(t):
                    return s
            except Exception:
                pass
        if fname(t) == "item" and len(t.args) == 2 and not T.is_str_symbol(t.args[1]):
            return self.sign_of(t.args[0])       # an element of an array the table speaks about
        return None

    def atoms(self, t, out: List):
        """maximal sub-terms that are inputs: symbols and applications of operators the evaluator does not interpret"""
        if t.is_number:
            return
        f = fname(t)
        if isinstance(t, sp.Symbol) or (f is not None and f not in STRUCT):
            if t not in out:
                out.append(t)
            return
        if isinstance(t, sp.Tuple) or f in STRUCT or isinstance(t, (sp.Add, sp.Mul, sp.Pow, sp.Function, sp.Abs)):
            for a in t.args:
                self.atoms(a, out)
            return
        if t not in out:
            out.append(t)

    def input_like(self, t) -> bool:
        if t.is_number or isinstance(t, sp.Symbol):
            return True
        if isinstance(t, sp.Tuple):
            return all(self.input_like(a) for a in t.args)
        f = fname(t)
        if f == "item":
            return all(self.input_like(a) for a in t.args)
        if f is not None and self.sign_of(t) is not None:
            return True         # an opaque quantity the assumption table speaks about (wavenumber, group velocity, ...)
        if f in ("slc", "shape", "len"):
            return all(self.input_like(a) for a in t.args)
        if isinstance(t, (sp.Add, sp.Mul, sp.Pow)):
            return all(self.input_like(a) for a in t.args)
        return False

    def scalar_like(self, t) -> bool:
        """a factor that is one number for the whole array expression (a parameter read by key, a symbol declared scalar)"""
        return fname(t) == "item" and T.is_str_symbol(t.args[1]) and isinstance(t.args[0], sp.Symbol) and str(t.args[0]) in ("par",)

    def extent(self, t, env) -> int:
        if t.is_number:
            return int(t)
        key = ("extent", t)
        if key not in env:
            env[key] = self.rng.choice([1, 2, 3])
        return env[key]

    def leaf(self, t) -> bool:
        """something the search may choose: an input (symbol, element of an input) or an opaque quantity the assumption table
        constrains; never a value computed by a construct this evaluator does not interpret"""
        if isinstance(t, sp.Symbol):
            return True
        f = fname(t)
        if f is not None and f not in STRUCT and f != "item" and self.sign_of(t) is not None:
            return True
        if f == "item":
            return self.input_like(t)
        return False

    def ev(self, t, env: Dict) -> float:
        if t in env:
            return env[t]
        if not t.is_number and self.leaf(t):
            s = self.sign_of(t)
            if s is None:
                env[t] = self.rng.choice(GENERIC)
            else:
                pool = [v for v in GENERIC + POSITIVE if _in(v, s)]
                env[t] = self.rng.choice(pool) if pool else 1.0
            return env[t]
        if t.is_number:
            if t in (sp.nan, sp.zoo, sp.oo, -sp.oo):
                raise Invalid()
            return float(t)
        f = fname(t)
        if f in ("ite", "where"):
            return self.ev(t.args[1], env) if self.cond(t.args[0], env) else self.ev(t.args[2], env)
        if f in ("maximum", "max", "minimum", "min"):
            args = list(t.args[0].args) if len(t.args) >= 1 and isinstance(t.args[0], sp.Tuple) else [a for a in t.args if a != T.NONE_T]
            vals = [self.ev(a, env) for a in args]
            if not vals:
                raise Invalid()
            return max(vals) if f in ("maximum", "max") else min(vals)
        if f == "loopsum" and len(t.args) >= 3:
            # a genuine sum over a small concrete extent: every term is evaluated at its own index (its elements are inputs of their own)
            body, lv, rng = t.args[:3]
            if fname(rng) not in ("range", "prange") or len(rng.args) not in (1, 2):
                raise Invalid()
            lo = 0 if len(rng.args) == 1 else int(round(self.ev(rng.args[0], env)))
            hi = self.extent(rng.args[-1], env)
            if hi - lo > 6:
                raise Invalid()
            return sum(self.ev(body.xreplace({lv: sp.Integer(i)}), env) for i in range(lo, hi))
        if f == "loopsum_brk":
            raise Invalid()
        if f == "item":
            base, idx = t.args
            fb = fname(base)
            if fb == "tabulate" and len(base.args) >= 4 and base.args[1] == base.args[3]:
                return self.ev(base.args[2].xreplace({base.args[3]: idx}), env)
            if fb == "store" and base.args[1] == idx:
                return self.ev(base.args[2], env)
            if isinstance(base, (sp.Add, sp.Mul)):
                parts = [a if a.is_number or self.scalar_like(a) else T.op("item", a, idx) for a in base.args]
                return self.ev(base.func(*parts), env)
            if isinstance(base, sp.Pow) and base.args[1].is_number:
                return self.ev(T.op("item", base.args[0], idx) ** base.args[1], env)
            raise Invalid()
        if f == "pymod":
            a, b = self.ev(t.args[0], env), self.ev(t.args[1], env)
            if b == 0:
                raise Invalid()
            return a % b
        if f in ("lt", "ge", "gt", "le", "eq", "ne", "and_", "or_", "not_", "isnull", "isnan"):
            return 1.0 if self.cond(t, env) else 0.0
        if isinstance(t, sp.Add):
            return sum(self.ev(a, env) for a in t.args)
        if isinstance(t, sp.Mul):
            v = 1.0
            for a in t.args:
                v *= self.ev(a, env)
            return v
        if isinstance(t, sp.Pow):
            b, e = self.ev(t.args[0], env), self.ev(t.args[1], env)
            if b == 0 and e < 0:
                raise Invalid()
            if b < 0 and abs(e - round(e)) > 1e-12:
                raise Invalid()
            try:
                return float(b ** (int(round(e)) if abs(e - round(e)) < 1e-12 else e))
            except (OverflowError, ZeroDivisionError):
                raise Invalid()
        table = {sp.exp: math.exp, sp.log: math.log, sp.cos: math.cos, sp.sin: math.sin, sp.tan: math.tan, sp.tanh: math.tanh,
                 sp.sinh: math.sinh, sp.cosh: math.cosh, sp.Abs: abs, sp.sqrt: math.sqrt, sp.atan: math.atan}
        for k, fn in table.items():
            if isinstance(t, k):
                try:
                    return float(fn(self.ev(t.args[0], env)))
                except (ValueError, OverflowError):
                    raise Invalid()
        if isinstance(t, sp.atan2):
            return math.atan2(self.ev(t.args[0], env), self.ev(t.args[1], env))
        raise Invalid()

    def cond(self, c, env) -> bool:
        f = fname(c)
        if c == T.TRUE_T:
            return True
        if c == T.FALSE_T:
            return False
        if f == "and_":
            return all(self.cond(a, env) for a in c.args)
        if f == "or_":
            return any(self.cond(a, env) for a in c.args)
        if f == "not_":
            return not self.cond(c.args[0], env)
        if f in ("isnull", "isnan"):
            return False
        if f in ("lt", "ge", "gt", "le", "eq", "ne") and len(c.args) == 2:
            a, b = self.ev(c.args[0], env), self.ev(c.args[1], env)
            return {"lt": a < b, "ge": a >= b, "gt": a > b, "le": a <= b, "eq": a == b, "ne": a != b}[f]
        if c in env:
            return bool(env[c])
        raise Invalid()

    def find(self, term, want: int, trials: int = 800, seed: int = 20260929) -> Optional[Tuple[Dict, float]]:
        """an assignment of the term's inputs under which `term` has a sign in `want`, respecting the assumptions; or None.
        Inputs are sampled lazily while the term is evaluated: symbols, elements of input arrays (each index its own value) and
        opaque quantities the assumption table constrains.  Loop summaries are evaluated over a small concrete extent.  Anything
        else that is not interpreted makes the sample invalid, so the search abstains rather than invent a value for it."""
        term = T.strip_never(T.to_term(term))
        # free index symbols (the bin the obligation is stated for) are fixed to position 0, so that the element they select and the
        # elements enumerated by the sums are the same inputs
        bound = {n.args[1] for n in sp.preorder_traversal(term) if fname(n) in ("loopsum", "loopsum_brk") and len(n.args) >= 2}
        bound |= {n.args[3] for n in sp.preorder_traversal(term) if fname(n) == "tabulate" and len(n.args) >= 4}
        idx_syms = set()
        for n in sp.preorder_traversal(term):
            if fname(n) == "item" and len(n.args) == 2:
                ix = n.args[1]
                for x in (ix.args if isinstance(ix, sp.Tuple) else [ix]):
                    if isinstance(x, sp.Symbol) and x not in bound and not T.is_str_symbol(x) and str(x) not in ("None", "Ellipsis"):
                        idx_syms.add(x)
        if idx_syms:
            term = term.xreplace({x: sp.Integer(0) for x in idx_syms})
        constrained: List = []

        def collect(t):
            if t.is_number or isinstance(t, sp.Symbol):
                return
            if self.sign_of(t) is not None and not self.leaf(t) and t not in constrained:
                constrained.append(t)
            for a in t.args:
                collect(a)
        collect(term)
        self.rng = random.Random(seed)
        for _ in range(trials):
            env: Dict = {}
            try:
                v = self.ev(term, env)
                # composite sub-terms the assumption table speaks about must respect it under this sample (only those without free
                # loop indices can be evaluated; the others were instantiated index by index inside the sums)
                if any(not _in(self.ev(c_, env), self.sign_of(c_)) for c_ in constrained
                       if not any(str(x).startswith("~i:") for x in c_.free_symbols)):
                    continue
            except Invalid:
                continue
            except Exception:
                continue
            if _in(v, want) and v != 0:
                return {k: val for k, val in env.items() if isinstance(k, sp.Basic)}, v
        return None


def describe(env: Dict, limit: int = 6) -> str:
    items = sorted(env.items(), key=lambda kv: str(kv[0]))[:limit]
    return ", ".join(f"{T.show(k, 50)} = {v:g}" for k, v in items) + (" ..." if len(env) > limit else "")
