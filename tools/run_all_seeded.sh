#!/bin/sh
# replay every seeded change against its property's quick check; prints one line per change, exit 1 if any is not reported
cd /verif || exit 2
bad=0
for d in seeded/*/; do
  id=$(basename "$d"); pid=${id%-*}
  out=$(tools/run_seeded.sh "$d/patch.diff" "$pid" 2>&1)
  rc=$(echo "$out" | sed -n 's/^== .* exit=\([0-9]*\)$/\1/p' | head -1)
  rule=$(echo "$out" | grep -m1 "rule=" | sed 's/^ *//' | cut -c1-110)
  echo "$id exit=$rc $rule"
  [ "$rc" = 1 ] || bad=1
done
git -C /repo status --short | grep -q . && { echo "/repo left dirty"; bad=1; }
exit $bad
