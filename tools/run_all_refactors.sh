#!/bin/sh
# replay every stored behaviour-preserving refactoring against all 20 quick checks; exit 1 if any check is not silent
# (JOBS refactorings at a time, default 3; each runs its 20 checks concurrently on a scratch copy, /repo is not touched)
cd /verif || exit 2
one() {
  d="$1"; id=$(basename "$d")
  out=$(tools/run_refactor.sh "$d/patch.diff" 2>&1 | grep -v "^WARNING")
  exp=$(python3 -c "import json,sys; print(json.load(open(sys.argv[1])).get('expected','silent'))" "$d/meta.json" 2>/dev/null)
  if [ -z "$out" ]; then echo "$id silent";
  elif [ "$exp" = "inconclusive" ] && ! echo "$out" | grep -q "exit=1"; then echo "$id no verdict (as recorded)";
  elif [ "$exp" = "false-alarm-recorded" ]; then echo "$id not silent (recorded as an open false alarm, DESIGN 8e round 4)";
  else echo "## $id NOT SILENT"; echo "$out"; fi
}
if [ "$1" = "--one" ]; then one "$2"; exit 0; fi
res=$(ls -d refactors/*/ | xargs -P "${JOBS:-3}" -n 1 "$0" --one)
echo "$res"
echo "$res" | grep -q "NOT SILENT" && exit 1
exit 0
