#!/bin/sh
# replay every stored behaviour-preserving refactoring against all 20 quick checks; exit 1 if any check is not silent
cd /verif || exit 2
bad=0
for d in refactors/*/; do
  id=$(basename "$d")
  out=$(tools/run_refactor.sh "$d/patch.diff" 2>&1 | grep -v "^WARNING")
  exp=$(python3 -c "import json,sys; print(json.load(open(sys.argv[1])).get('expected','silent'))" "$d/meta.json" 2>/dev/null)
  if [ -z "$out" ]; then echo "$id silent";
  elif [ "$exp" = "inconclusive" ] && ! echo "$out" | grep -q "exit=1"; then echo "$id no verdict (as recorded)";
  else echo "## $id"; echo "$out"; bad=1; fi
done
exit $bad
