#!/bin/sh
# replay every stored behaviour-preserving refactoring against all 20 quick checks; exit 1 if any check is not silent
cd /verif || exit 2
bad=0
for d in refactors/*/; do
  id=$(basename "$d")
  out=$(tools/run_refactor.sh "$d/patch.diff" 2>&1 | grep -v "^WARNING")
  if [ -n "$out" ]; then echo "## $id"; echo "$out"; bad=1; else echo "$id silent"; fi
done
exit $bad
