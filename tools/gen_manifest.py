#!/usr/bin/env python3
"""Regenerate MANIFEST.json from the claims table below (keeps it schema-valid at all times)."""
import json, os
HERE = os.path.dirname(os.path.dirname(os.path.abspath(__file__)))
from claims import CLAIMS, NOT_APPLICABLE  # noqa

props = [json.loads(l) for l in open(os.path.join(HERE, "properties.jsonl"))]
checks = []
for p in props:
    c = CLAIMS.get(p["id"])
    if not c:
        continue
    checks.append({
        "property_id": p["id"],
        "quick_cmd": f"./check {p['id']} --tier quick",
        "thorough_cmd": f"./check {p['id']} --tier thorough",
        "evidence_file": f"/verif/evidence/{p['id']}.json",
        "replay_cmd_template": f"./check {p['id']} --replay {{path}}",
        "engine": "osuverif",
        "level_claimed": {"category": "other", "text": c["text"], "design_ref": c.get("design_ref", "DESIGN.md section 5")},
        "level_note": c["note"],
        "technique": c["technique"],
    })
na = []
for p in props:
    if p["id"] not in CLAIMS:
        na.append({"property_id": p["id"], "reason": NOT_APPLICABLE.get(p["id"], "check under construction in this session (see DESIGN.md section 5); not yet claimed")})
m = {
    "version": 1,
    "setup_cmd": "python3-vt -m compileall -q osuverif",
    "hooks": {
        "guard": "OSU_VERIF",
        "enable": "no hooks: every check is a static analysis that parses /repo/src afresh on every run; the guard name is reserved and unused by any source commit",
        "baseline_off_cmd": "cd /repo && /venv/bin/python -m pytest -ra -q -p no:cacheprovider --timeout=900 --continue-on-collection-errors",
        "source_commits": [],
        "add_only": True,
    },
    "engines": [{
        "name": "osuverif",
        "path": "/verif/osuverif",
        "serves_properties": sorted(CLAIMS),
        "kind_free_text": "repository-specific static analyser on python ast: resolved program model, TermFlow abstract interpretation over a term domain with inlining, sign/unit/role analyses on the extracted terms, CFG dataflow (reaching definitions, definite assignment, typestate, provenance), call-binding and environment resolution. No repository code is imported or executed.",
    }],
    "checks": checks,
    "not_applicable": na,
    "notes": "exit 0 = all obligations discharged; exit 1 = VIOLATION line(s); exit 2 = ANALYSIS-INCONCLUSIVE / ANALYSIS-ERROR (never a silent pass). Known findings: /verif/known_findings.json.",
}
json.dump(m, open(os.path.join(HERE, "MANIFEST.json"), "w"), indent=1)
print("manifest:", len(checks), "checks,", len(na), "not applicable")
