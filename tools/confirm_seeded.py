#!/usr/bin/env python3
"""Confirm one seeded change delivered by a sub-agent and store it under /verif/seeded/<id>/.

usage: tools/confirm_seeded.py <delivery-dir> <id> <round>

<delivery-dir> holds patch.diff, demo.py and notes.json.  The confirmation is made on a scratch worktree of
/repo HEAD under /tmp (removed afterwards): the demonstration must exit 0 on the unmodified copy and non-zero
with the patch applied, and the test suite's summary line with the patch must equal the baseline's
(`1 failed, 62 passed, 1 error`).  Nothing is written to /repo.
"""
import json
import os
import re
import shutil
import subprocess
import sys

BASELINE = (1, 62, 1)  # failed, passed, errors on the unmodified tree


def run(cmd, cwd, env, timeout):
    try:
        p = subprocess.run(cmd, cwd=cwd, env=env, capture_output=True, text=True, timeout=timeout)
        return p.returncode, (p.stdout + p.stderr)
    except subprocess.TimeoutExpired as e:
        return 124, "TIMEOUT " + str(e)


def last_line(text):
    lines = [l for l in text.strip().splitlines() if l.strip()]
    return lines[-1][:200] if lines else ""


def main():
    src, sid, rnd = sys.argv[1], sys.argv[2], int(sys.argv[3])
    pid = sid.rsplit("-", 1)[0]
    wt = f"/tmp/cf/wt-{sid}"
    nc = f"/tmp/cf/nc-{sid}"
    os.makedirs("/tmp/cf", exist_ok=True)
    for d in (wt, nc):
        shutil.rmtree(d, ignore_errors=True)
    subprocess.run(["git", "-C", "/repo", "worktree", "prune"], check=False)
    subprocess.run(["git", "-C", "/repo", "worktree", "add", "--detach", "-q", wt, "HEAD"], check=True)
    os.makedirs(nc)
    env = dict(os.environ, PYTHONPATH=f"{wt}/src", NUMBA_CACHE_DIR=nc)
    res = {"id": sid, "ok": False}
    try:
        demo = os.path.join(src, "demo.py")
        rc0, out0 = run(["/venv/bin/python", demo], wt, env, 1500)
        ap = subprocess.run(["git", "-C", wt, "apply", os.path.join(src, "patch.diff")], capture_output=True, text=True)
        res["patch_applies"] = ap.returncode == 0
        if ap.returncode != 0:
            res["why"] = "patch does not apply: " + ap.stderr[:300]
            return res
        files = subprocess.run(["git", "-C", wt, "diff", "--name-only"], capture_output=True, text=True).stdout.split()
        shutil.rmtree(nc); os.makedirs(nc)
        rc1, out1 = run(["/venv/bin/python", demo], wt, env, 1500)
        rct, outt = run(["/venv/bin/python", "-m", "pytest", "-q", "-p", "no:cacheprovider", "--timeout=900",
                         "--continue-on-collection-errors", "tests"], wt, env, 3000)
        summ = last_line(outt)
        m = lambda k: int((re.search(r"(\d+) " + k, summ) or [0, 0])[1])
        got = (m("failed"), m("passed"), m("error"))
        failed_names = sorted(set(re.findall(r"^(?:FAILED|ERROR) (\S+)", outt, re.M)))
        res.update(demo_exit_unmodified=rc0, demo_unmodified=last_line(out0), demo_exit_with_change=rc1,
                   demo_with_change=last_line(out1), tests_with_change=summ, tests_counts=got,
                   failed_names=failed_names, files=files)
        res["ok"] = rc0 == 0 and rc1 not in (0, 124) and got == BASELINE and all(f.startswith("src/") for f in files)
        if not res["ok"]:
            res["why"] = f"rc0={rc0} rc1={rc1} tests={got}"
            res["tail0"] = out0[-600:]
            res["tail1"] = out1[-600:]
    finally:
        subprocess.run(["git", "-C", "/repo", "worktree", "remove", "--force", wt], check=False)
        shutil.rmtree(nc, ignore_errors=True)
        shutil.rmtree(wt, ignore_errors=True)
    if res["ok"]:
        notes = {}
        try:
            notes = json.load(open(os.path.join(src, "notes.json")))
        except Exception:
            pass
        dst = f"/verif/seeded/{sid}"
        os.makedirs(dst, exist_ok=True)
        shutil.copy(os.path.join(src, "patch.diff"), dst)
        shutil.copy(demo, dst)
        head = subprocess.run(["git", "-C", "/repo", "rev-parse", "--short", "HEAD"], capture_output=True, text=True).stdout.strip()
        meta = {
            "id": sid, "property": pid, "round": rnd,
            "summary": notes.get("summary"), "why_realistic": notes.get("why_realistic"),
            "needs_to_manifest": notes.get("needs_to_manifest"), "files": res["files"],
            "origin": f"fresh sub-agent (round {rnd}: two cooperating sites, changes outside the anchored files, order of operations / data layout, "
                      f"multi-step histories, dtype and view/copy, concurrency-shaped), given only the property text and a scratch git worktree of /repo (HEAD {head}); nothing from /verif",
            "confirmed": {
                "how": "tools/confirm_seeded.py: scratch worktree of /repo HEAD under /tmp with PYTHONPATH=<copy>/src and a private cold NUMBA_CACHE_DIR: demo.py on the unmodified copy, `git apply patch.diff`, demo.py again, then the whole test suite in the patched copy; copy removed afterwards",
                "patch_applies": True,
                "demo_unmodified": res["demo_unmodified"], "demo_exit_unmodified": res["demo_exit_unmodified"],
                "demo_with_change": res["demo_with_change"], "demo_exit_with_change": res["demo_exit_with_change"],
                "tests_with_change": res["tests_with_change"],
                "tests_baseline": "1 failed (test_interpolate_frequency: qpsolvers missing), 62 passed, 1 collection error (test_parametric) - identical",
            },
            "check": {"how": f"`tools/run_seeded.sh seeded/{sid}/patch.diff {pid}`", "first_pass_exit": None, "exit": None},
        }
        json.dump(meta, open(os.path.join(dst, "meta.json"), "w"), indent=1)
    return res


if __name__ == "__main__":
    r = main()
    print(json.dumps(r))
    sys.exit(0 if r.get("ok") else 1)
