#!/usr/bin/env python3
"""Re-confirm one behaviour-preserving refactoring delivered by a sub-agent and store it under /verif/refactors/<id>/.

usage: tools/confirm_refactor.py <delivery-dir> <id> <round> [--no-tests]

On a scratch worktree of /repo HEAD under /tmp (removed afterwards): equiv.py on the unmodified copy and on the
patched copy, each with an empty numba cache; the DIGEST lines must be identical; the test suite's summary with
the patch must equal the baseline's.  Nothing is written to /repo.
"""
import json
import os
import re
import shutil
import subprocess
import sys

BASELINE = (1, 62, 1)


def run(cmd, cwd, env, timeout):
    try:
        p = subprocess.run(cmd, cwd=cwd, env=env, capture_output=True, text=True, timeout=timeout)
        return p.returncode, p.stdout + p.stderr
    except subprocess.TimeoutExpired as e:
        return 124, "TIMEOUT " + str(e)


def digest(out):
    m = re.findall(r"^DIGEST\s+(\S+)", out, re.M)
    return m[-1] if m else None


def main():
    src, rid, rnd = sys.argv[1], sys.argv[2], int(sys.argv[3])
    notests = "--no-tests" in sys.argv
    pid = rid.rsplit("-", 1)[0]
    wt, nc = f"/tmp/cf/wt-{rid}", f"/tmp/cf/nc-{rid}"
    os.makedirs("/tmp/cf", exist_ok=True)
    for d in (wt, nc):
        shutil.rmtree(d, ignore_errors=True)
    subprocess.run(["git", "-C", "/repo", "worktree", "prune"], check=False)
    subprocess.run(["git", "-C", "/repo", "worktree", "add", "--detach", "-q", wt, "HEAD"], check=True)
    os.makedirs(nc)
    env = dict(os.environ, PYTHONPATH=f"{wt}/src", NUMBA_CACHE_DIR=nc)
    res = {"id": rid, "ok": False}
    try:
        eq = os.path.join(src, "equiv.py")
        rc0, out0 = run(["/venv/bin/python", eq], wt, env, 2400)
        ap = subprocess.run(["git", "-C", wt, "apply", os.path.join(src, "patch.diff")], capture_output=True, text=True)
        if ap.returncode != 0:
            res["why"] = "patch does not apply: " + ap.stderr[:300]
            return res
        files = subprocess.run(["git", "-C", wt, "status", "--porcelain"], capture_output=True, text=True).stdout.split("\n")
        files = [l[3:] for l in files if l.strip() and "__pycache__" not in l]
        shutil.rmtree(nc); os.makedirs(nc)
        rc1, out1 = run(["/venv/bin/python", eq], wt, env, 2400)
        d0, d1 = digest(out0), digest(out1)
        summ, got = "not run", BASELINE
        if not notests:
            rct, outt = run(["/venv/bin/python", "-m", "pytest", "-q", "-p", "no:cacheprovider", "--timeout=900",
                             "--continue-on-collection-errors", "tests"], wt, env, 3000)
            lines = [l for l in outt.strip().splitlines() if l.strip()]
            summ = lines[-1][:200] if lines else ""
            m = lambda k: int((re.search(r"(\d+) " + k, summ) or [0, 0])[1])
            got = (m("failed"), m("passed"), m("error"))
        res.update(digest_original=d0, digest_refactored=d1, rc0=rc0, rc1=rc1, tests=summ, files=files)
        res["ok"] = rc0 == 0 and rc1 == 0 and d0 is not None and d0 == d1 and got == BASELINE and all(f.startswith("src/") for f in files)
        if not res["ok"]:
            res["why"] = f"rc0={rc0} rc1={rc1} d0={d0} d1={d1} tests={got}"
            res["tail1"] = out1[-500:]
    finally:
        subprocess.run(["git", "-C", "/repo", "worktree", "remove", "--force", wt], check=False)
        shutil.rmtree(nc, ignore_errors=True)
        shutil.rmtree(wt, ignore_errors=True)
    if res["ok"]:
        notes = {}
        try:
            notes = json.load(open(os.path.join(src, "notes.json")))
        except Exception:
            pass
        dst = f"/verif/refactors/{rid}"
        os.makedirs(dst, exist_ok=True)
        shutil.copy(os.path.join(src, "patch.diff"), dst)
        shutil.copy(eq, dst)
        meta = {"property": pid, "summary": notes.get("summary"), "kind": notes.get("kind"), "files": res["files"],
                "equiv_original": d0, "equiv_refactored": d1, "bit_exact": notes.get("bit_exact"),
                "tests": res["tests"], "round": rnd,
                "reconfirmed": "tools/confirm_refactor.py: equivalence script re-run by the author of /verif on a scratch worktree of /repo HEAD and on the patched copy (empty numba cache on both sides): DIGEST lines identical; whole test suite in the patched copy: same outcome as the baseline"}
        json.dump(meta, open(os.path.join(dst, "meta.json"), "w"), indent=1)
    return res


if __name__ == "__main__":
    r = main()
    print(json.dumps(r))
    sys.exit(0 if r.get("ok") else 1)
