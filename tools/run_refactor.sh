#!/bin/sh
# usage: tools/run_refactor.sh <patch.diff> [property ids... default: all]
# applies a (behaviour-preserving) patch to a scratch copy of /repo/src and runs the quick checks on it with --root;
# prints every check that is not silent (exit != 0).  /repo is not touched.
patch="$1"; shift
case "$patch" in /*) ;; *) patch="$(pwd)/$patch";; esac
pids="$*"; [ -n "$pids" ] || pids="C01 C02 C03 C04 C05 C06 C07 C08 C09 C10 C11 C12 C13 C14 C15 C16 C17 C18 C19 C20"
tmp=$(mktemp -d /tmp/osuverif-rf-XXXXXX)
mkdir -p "$tmp/src"
rsync -a --exclude __pycache__ /repo/src/ocean_science_utilities "$tmp/src/"
( cd "$tmp" && patch -s -p1 < "$patch" ) || { echo "patch does not apply"; rm -rf "$tmp"; exit 2; }
cd /verif
for pid in $pids; do
  ( out=$(OSU_VERIF_NO_EVIDENCE=1 ./check "$pid" --tier quick --root "$tmp" 2>&1); rc=$?
    if [ $rc -ne 0 ]; then echo "!! $pid exit=$rc"; echo "$out" | grep -E "^  rule=|^ANALYSIS" | cut -c1-260 | head -6; fi ) &
done
wait
rm -rf "$tmp"
