#!/usr/bin/env python3
"""Robustness probe: write a copy of the package in which every function-local variable is renamed (behaviour preserving),
then the checks can be run on it with --root.  usage: rename_locals.py <src-root> <dst-root> [suffix] [--keep name,name]"""
import ast, os, shutil, sys

PKGREL = "src/ocean_science_utilities"


def rename_function(fn: ast.AST, suffix: str, keep):
    params = {a.arg for a in fn.args.posonlyargs + fn.args.args + fn.args.kwonlyargs}
    if fn.args.vararg:
        params.add(fn.args.vararg.arg)
    if fn.args.kwarg:
        params.add(fn.args.kwarg.arg)
    declared = set()
    stores = set()
    nested_params = set()
    for n in ast.walk(fn):
        if isinstance(n, (ast.Global, ast.Nonlocal)):
            declared |= set(n.names)
        elif isinstance(n, ast.Name) and isinstance(n.ctx, (ast.Store, ast.Del)):
            stores.add(n.id)
        elif isinstance(n, (ast.FunctionDef, ast.AsyncFunctionDef, ast.Lambda)) and n is not fn:
            a = n.args
            nested_params |= {x.arg for x in a.posonlyargs + a.args + a.kwonlyargs}
            if isinstance(n, (ast.FunctionDef, ast.AsyncFunctionDef)):
                stores.discard(n.name)
        elif isinstance(n, (ast.Import, ast.ImportFrom)):
            for al in n.names:
                declared.add((al.asname or al.name).split(".")[0])
        elif isinstance(n, ast.ExceptHandler) and n.name:
            declared.add(n.name)
    names = {x for x in stores if x not in params and x not in declared and x not in nested_params and x not in keep
             and not x.startswith("__")}
    if not names:
        return 0
    for n in ast.walk(fn):
        if isinstance(n, ast.Name) and n.id in names:
            n.id = n.id + suffix
    return len(names)


def main():
    src, dst = sys.argv[1], sys.argv[2]
    suffix = sys.argv[3] if len(sys.argv) > 3 and not sys.argv[3].startswith("--") else "_r"
    keep = set()
    for a in sys.argv[3:]:
        if a.startswith("--keep="):
            keep = set(a.split("=", 1)[1].split(","))
    shutil.copytree(os.path.join(src, PKGREL), os.path.join(dst, PKGREL), ignore=shutil.ignore_patterns("__pycache__"))
    total = 0
    for root, _, files in os.walk(os.path.join(dst, PKGREL)):
        for fn in files:
            if not fn.endswith(".py"):
                continue
            path = os.path.join(root, fn)
            tree = ast.parse(open(path).read())
            # innermost functions first is unnecessary: a nested function's locals are renamed when visited on its own;
            # names shared with the enclosing function are renamed consistently because ast.walk covers the nested body
            done = set()
            for n in ast.walk(tree):
                if isinstance(n, (ast.FunctionDef, ast.AsyncFunctionDef)):
                    # skip nested functions (handled through their parent) to avoid double suffixes
                    pass
            def visit(node, inside):
                nonlocal total
                for ch in ast.iter_child_nodes(node):
                    if isinstance(ch, (ast.FunctionDef, ast.AsyncFunctionDef)):
                        if not inside:
                            total += rename_function(ch, suffix, keep)
                        visit(ch, True)
                    else:
                        visit(ch, inside)
            visit(tree, False)
            open(path, "w").write(ast.unparse(tree) + "\n")
    print("renamed locals:", total)


main()
