#!/bin/sh
# run all 20 checks (tier $1, default quick) in parallel without touching committed evidence unless EVID=1
tier=${1:-quick}
cd /verif
[ "$EVID" = 1 ] || export OSU_VERIF_NO_EVIDENCE=1
for i in 01 02 03 04 05 06 07 08 09 10 11 12 13 14 15 16 17 18 19 20; do
  ( ./check C$i --tier $tier > /tmp/runall_C$i.log 2>&1; echo "C$i exit=$? $(head -1 /tmp/runall_C$i.log)" ) &
done
wait
