STATIC_NOTE = ("Trusted base: the operator-model table (numpy/xarray/stdlib semantics as documented), sympy's algebraic normal form, "
               "and the step from the decided structural clauses to their numerical consequences. The numerical statement of the property "
               "(tolerances, inequalities, relations between two runs) is NOT decided; see DESIGN.md section 5 for the declined clauses.")
CLAIMS = {
 "C01": {"text": "Static analysis: on every path of the current source the moment/Hm0/Tm01/Tm02 methods of both spectrum classes denote exactly the defining formula (band mask fmin<=f<fmax applied to energy and frequency alike, exponent = power, NaN->0 before a trapezoid along frequency, 2-D reduced through the class's own direction integral, constants 4/sqrt/ratios, band forwarded). Decides the structural necessary conditions, not the floating-point consequences.",
         "note": STATIC_NOTE, "technique": "abstract interpretation over a term domain (value numbering with inlining) + term equivalence against the defining formula; environment resolution of library attributes"},
}
NOT_APPLICABLE = {}
