#!/bin/sh
# usage: tools/run_seeded.sh <patch.diff> <property-id> [more property ids...]
# applies the patch to /repo, runs the quick checks, restores /repo; prints one line per check
patch="$1"; shift
case "$patch" in /*) ;; *) patch="$(pwd)/$patch";; esac
cd /verif || exit 2
if ! git -C /repo diff --quiet; then echo "refusing: /repo has uncommitted changes"; exit 2; fi
git -C /repo apply "$patch" || { echo "patch does not apply"; exit 2; }
for pid in "$@"; do
  out=$(OSU_VERIF_NO_EVIDENCE=1 ./check "$pid" --tier quick 2>&1); rc=$?
  echo "== $pid exit=$rc"
  echo "$out" | grep -E "^VIOLATION|^  rule=|^ANALYSIS" | head -8
done
git -C /repo checkout -- .
